"""Chunkedness analysis for R-LAZY (C12): predicate abstraction over a function's own dask-ness atoms.

Per function the abstract state is (P, vars):
  P     the set of still-possible valuations of the function's atoms, as a bitset over all 2^n valuations
        atoms: 'ch:<param>' (the parameter's value is a chunked array / contains one), 'b:<param>' (truthiness of a boolean
        parameter), 'o:<text>' (an opaque test such as method == 'cohorts'; equality atoms on one variable are exclusive)
  vars  name -> VarInfo(chunk, exact, kind, flag): chunk = valuations under which the variable may be chunked
        (exact: 'is chunked iff'), flag = valuations under which a boolean variable is true (None = unknown)
Branches filter P, `raise` kills paths (CFG), re-binding a variable replaces its info.  No solver: n <= 12, bitsets are ints.
Function summaries (sinks with their conditions, chunkedness of the return value) are computed on demand and mapped
through call sites by enumerating compatible valuation pairs.
"""
from __future__ import annotations

import ast
from dataclasses import dataclass, field, replace

from .cfg import CFG, Node
from .dataflow import forward, atom_of, _eq_parts
from .model import AnalysisError, Func, norm, walk_own

MAX_ATOMS = 16

CHUNK_PREDICATES = {"is_duck_dask_array", "is_chunked_array", "is_dask_collection"}      # true iff chunked (dask is the chunked type here)
IMPLIES_CHUNKED = {"is_duck_cubed_array"}      # true => chunked, false => nothing (cubed arrays are one kind of chunked array)
DUCK_PREDICATES = {"is_duck_array"}       # false => certainly not chunked
METADATA_ATTRS = {"shape", "ndim", "dtype", "chunks", "numblocks", "size", "name", "_meta", "chunksize", "npartitions", "nbytes",
                  "dims", "sizes", "attrs", "indexes", "_indexes", "coords", "_coord_names", "data_vars", "variables", "kind", "names",
                  "_key_array", "nnz", "fill_value", "blocks", "itemsize", "closed", "closed_right", "spec"}
# materialising primitives: dotted name -> positions of the materialised arguments
MATERIALISE_FUNCS = {
    "numpy.asarray": [0], "numpy.array": [0], "numpy.asanyarray": [0], "numpy.ascontiguousarray": [0],
    "numpy.sort": [0], "numpy.argsort": [0], "numpy.unique": [0], "numpy.isin": [0, 1], "numpy.nonzero": [0], "numpy.median": [0],
    "numpy.diff": [0], "numpy.insert": [0], "numpy.searchsorted": [0, 1], "numpy.digitize": [0], "numpy.bincount": [0],
    "numpy.array_equal": [0, 1], "numpy.ravel_multi_index": [0], "numpy.unravel_index": [0], "numpy.lexsort": [0],
    "pandas.unique": [0], "pandas.factorize": [0], "pandas.Index": [0], "pandas.isnull": [0], "pandas.RangeIndex": [0],
    "pandas.IntervalIndex.from_breaks": [0], "pandas.cut": [0],
    "dask.compute": [0, 1, 2, 3], "dask.base.compute": [0, 1, 2, 3], "builtins.list": [0], "builtins.sorted": [0], "builtins.set": [0],
    "builtins.bool": [0], "builtins.int": [0], "builtins.float": [0], "builtins.range": [0, 1, 2],
    "numpy_groupies.aggregate_numpy.aggregate": [0, 1], "numpy_groupies.aggregate": [0, 1],
    "scipy.sparse.csc_array": [0], "scipy.sparse.csr_array": [0],
}
MATERIALISE_METHODS = {"compute", "item", "tolist", "to_numpy", "load", "persist_now", "__bool__", "__iter__", "tobytes"}
MATERIALISE_ATTRS = {"values"}
# calls that always yield a chunked (lazy) array
EAGER_CONSTRUCTORS = {"numpy.full", "numpy.zeros", "numpy.ones", "numpy.empty"}
CHUNKED_MAKERS = {"dask.array.from_array", "dask.array.arange", "dask.array.blockwise", "dask.array.map_blocks", "dask.array.Array",
                  "dask.array.core.Array", "dask.array.core.map_blocks", "dask.array.zeros", "dask.array.ones", "dask.array.full",
                  "dask.array.empty", "dask.array.reductions.cumreduction", "dask.array.reductions._tree_reduce", "cubed.from_array",
                  "cubed.core.groupby.groupby_reduction", "cubed.core.groupby.groupby_blockwise", "dask.array.core.from_array"}
LAZY_METHODS_KEEP = None  # every other method / arithmetic keeps a chunked value lazy


@dataclass(frozen=True)
class VarInfo:
    chunk: int = 0            # bitset: valuations under which the value may be chunked
    exact: bool = True        # chunk is 'iff' (True) or 'may' (False)
    kind: str = "array"       # array | tuple | other
    flag: int | None = None   # bitset where a boolean variable is true; None unknown
    anyflag: int | None = None  # for tuples of booleans: valuations where any() of it is true
    parts: tuple | None = None  # per-position infos of a tuple value (function results)
    eager_ctor: int = 0         # bitset: valuations under which the value was built by a NumPy constructor that ignores its input's
                                # array type (np.full, np.zeros ...): an in-memory array whatever the inputs are


NOCHUNK = VarInfo()


@dataclass
class Sink:
    func: str
    node: ast.AST
    what: str
    cond: int                 # bitset over the function's valuations
    chain: tuple = ()


class Atoms:
    def __init__(self, names: list[str]):
        self.names = names[:MAX_ATOMS]
        self.n = len(self.names)
        self.nval = 1 << self.n
        self.ALL = (1 << self.nval) - 1
        self._bits: dict[str, int] = {}
        for i, a in enumerate(self.names):
            b = 0
            for v in range(self.nval):
                if v >> i & 1:
                    b |= 1 << v
            self._bits[a] = b
        self.feasible = self.ALL
        # exclusivity of equality atoms on the same left-hand side
        eqs: dict[str, list[tuple[str, str]]] = {}
        for a in self.names:
            if a.startswith("o:"):
                p = _eq_parts(a[2:])
                if p and p[0] == "eq":
                    eqs.setdefault(p[1], []).append((a, p[2]))
        for lhs, lst in eqs.items():
            for i in range(len(lst)):
                for j in range(i + 1, len(lst)):
                    if lst[i][1] != lst[j][1]:
                        self.feasible &= ~(self._bits[lst[i][0]] & self._bits[lst[j][0]])
        # 'x in [a, b]' equals the disjunction of the x == a atoms we know
        for a in self.names:
            if a.startswith("o:"):
                p = _eq_parts(a[2:])
                if p and p[0] == "in":
                    members = [x for (x, c) in eqs.get(p[1], []) if c in p[2]]
                    others = [x for (x, c) in eqs.get(p[1], []) if c not in p[2]]
                    for o in others:
                        self.feasible &= ~(self._bits[a] & self._bits[o])
                    for m in members:
                        self.feasible &= ~(self._bits[m] & ~self._bits[a])
                    if len(members) == len(p[2]):
                        union = 0
                        for m in members:
                            union |= self._bits[m]
                        self.feasible &= ~(self._bits[a] & ~union)

    def bit(self, a: str) -> int | None:
        return self._bits.get(a)

    def valuations(self, bits: int):
        v = 0
        while bits:
            if bits & 1:
                yield v
            bits >>= 1
            v += 1

    def describe(self, bits: int) -> str:
        """a short description of a set of valuations: atoms that are constant over it"""
        vals = list(self.valuations(bits))
        if not vals:
            return "never"
        parts = []
        for i, a in enumerate(self.names):
            s = {v >> i & 1 for v in vals}
            if s == {1}:
                parts.append(a)
            elif s == {0}:
                parts.append("not " + a)
        return " and ".join(parts) or "always"


@dataclass
class Summary:
    atoms: Atoms
    sinks: list
    ret: VarInfo         # chunkedness of the return value (parts: per tuple position)
    ret_is_tuple: bool
    returns_when: int    # valuations under which the function can return normally


class LazyAnalysis:
    def __init__(self, ctx, exempt_funcs: dict[str, str]):
        self.ctx = ctx
        self.prog = ctx.prog
        self.res = ctx.resolver
        self.cg = ctx.callgraph
        self.exempt_funcs = exempt_funcs
        self.chunk_params: dict[str, set[str]] = {}     # function -> params that may receive a chunked value
        self.flag_params: dict[str, set[str]] = {}
        self.param_kinds: dict[tuple, str] = {}
        self.summaries: dict[str, Summary] = {}
        self.in_progress: set[str] = set()
        self.analysed_calls = 0
        self.sink_sites_seen = 0
        self.guarded_sites: list[str] = []

    # ------------------------------------------------------------------------------------------
    def run_roots(self, roots: dict[str, dict[str, str]]) -> list[Sink]:
        """roots: function -> {param: kind} of possibly-chunked parameters"""
        for q, ps in roots.items():
            self.chunk_params.setdefault(q, set()).update(ps)
        self.root_kinds = roots
        # fixpoint on the sets of chunk/flag parameters (they only grow)
        for _ in range(10):
            before = {k: (set(v), set(self.flag_params.get(k, ()))) for k, v in self.chunk_params.items()}
            self.summaries.clear()
            for q in roots:
                self.summary(q)
            after = {k: (set(v), set(self.flag_params.get(k, ()))) for k, v in self.chunk_params.items()}
            if before == after:
                break
        out = []
        for q in roots:
            s = self.summaries[q]
            # parameters the root does not declare as possibly chunked (e.g. documented-NumPy labels) are not chunked at the API
            mask = s.atoms.ALL
            for a in s.atoms.names:
                if a.startswith("ch:") and a[3:] not in roots[q]:
                    mask &= ~s.atoms.bit(a)
            for sk in s.sinks:
                c = sk.cond & mask
                if c:
                    out.append((q, s.atoms, Sink(sk.func, sk.node, sk.what, c, sk.chain)))
        return out

    def summary(self, q: str) -> Summary | None:
        if q in self.summaries:
            return self.summaries[q]
        if q in self.in_progress:
            return None
        self.in_progress.add(q)
        try:
            fa = _FuncLazy(self, self.prog.funcs[q])
            s = fa.run()
            self.summaries[q] = s
            return s
        finally:
            self.in_progress.discard(q)


class _FuncLazy:
    def __init__(self, la: LazyAnalysis, f: Func):
        self.la = la
        self.f = f
        self.u = f.unit
        self.cfg = CFG(f)
        self.sinks: dict[tuple, Sink] = {}
        self.ret: VarInfo | None = None
        self.ret_is_tuple = False
        self.returns_when = 0
        self.refusals: list[tuple[str, tuple, list]] = []   # (iter text, target names, leaves) of for-loops that only refuse
        self._build_atoms()

    # -- atoms -----------------------------------------------------------------------------------
    def _build_atoms(self):
        f = self.f
        names = []
        for p in f.params:
            if p in self.la.chunk_params.get(f.qualname, ()):
                names.append(f"ch:{p}")
        for p in f.params:
            if p in self.la.flag_params.get(f.qualname, ()):
                names.append(f"b:{p}")
        # opaque atoms: tests without calls over parameters / locals.  Priority: equality tests on 'method', 'is None' tests,
        # then flags that are tested more than once (only those can correlate two program points)
        sc = self.la.res.scope(f)
        cands: dict[str, list] = {}
        order = []
        for n in self.cfg.nodes:
            if n.kind != "test":
                continue
            a, _ = atom_of(n.ast)
            if any(isinstance(x, (ast.Call, ast.Subscript, ast.Attribute)) for x in ast.walk(n.ast)):
                continue
            vs = {x.id for x in ast.walk(n.ast) if isinstance(x, ast.Name)}
            if not vs or not all(v in sc.bind for v in vs):
                continue
            if any(k in ("iter", "opaque", "unpack") for v in vs for k, _ in sc.bind[v]):
                continue          # loop / unpacked variables change from iteration to iteration
            if a not in cands:
                cands[a] = [0, vs]
                order.append(a)
            cands[a][0] += 1
        params = set(f.params)

        def computable(e: ast.AST, depth=0) -> bool:
            """truth() will succeed structurally: predicates on names, any(<flag tuple>), and/or/not of those"""
            if isinstance(e, ast.BoolOp):
                return all(computable(v, depth) for v in e.values)
            if isinstance(e, ast.UnaryOp) and isinstance(e.op, ast.Not):
                return computable(e.operand, depth)
            if isinstance(e, ast.Call) and norm(e.func) in CHUNK_PREDICATES and e.args and isinstance(e.args[0], ast.Name):
                return True
            if isinstance(e, ast.Call) and norm(e.func) == "any" and e.args and isinstance(e.args[0], ast.Name):
                return True
            if isinstance(e, ast.Name) and depth < 3:
                return known_flag(e.id, depth + 1)
            return False

        def known_flag(v: str, depth=0) -> bool:
            """a local assigned once from chunkedness predicates: its truth is computed, no atom needed"""
            b = sc.bind.get(v, [])
            return len(b) == 1 and b[0][0] == "assign" and computable(b[0][1], depth)

        def prio(a):
            p_ = _eq_parts(a)
            vs = cands[a][1]
            if p_ is not None and p_[1] == "method":
                return 0
            if a.endswith(" is None") and not (vs & params):
                return 1                      # None-ness of a local (e.g. expected_)
            if p_ is None and len(vs) == 1 and all(known_flag(v) for v in vs):
                return 9
            if p_ is None and cands[a][0] > 1:
                return 2                      # a flag tested at two program points
            if a.endswith(" is None"):
                return 3
            if p_ is not None:
                return 4
            return 9
        for a in sorted(order, key=lambda x: (prio(x), order.index(x))):
            if prio(a) >= 9 or len(names) >= MAX_ATOMS:
                break
            names.append(f"o:{a}")
        self.atoms = Atoms(names)
        self.atom_vars = {a: {x.id for x in ast.walk(ast.parse(a[2:], mode="eval")) if isinstance(x, ast.Name)}
                          for a in self.atoms.names if a.startswith("o:")}

    def _param_kind(self, p: str) -> str:
        kinds = getattr(self.la, "root_kinds", {}).get(self.f.qualname, {})
        return kinds.get(p) or self.la.param_kinds.get((self.f.qualname, p)) or ("tuple" if p == self.f.vararg else "array")

    def forget(self, P: int, atom: str) -> int:
        """existentially quantify an atom (its variable was re-bound)"""
        A = self.atoms
        i = A.names.index(atom)
        b = A.bit(atom)
        sh = 1 << i
        return (P | ((P & b) >> sh) | ((P & ~b & A.ALL) << sh)) & A.ALL

    def rebind_atoms(self, name: str, value: ast.AST | None, P: int) -> int:
        A = self.atoms
        for a, vs in self.atom_vars.items():
            if name in vs:
                P = self.forget(P, a) & A.feasible
                if value is not None and a == f"o:{name} is None":
                    if isinstance(value, ast.Constant) and value.value is None:
                        P &= A.bit(a)
                    elif isinstance(value, (ast.Call, ast.Tuple, ast.List, ast.Dict, ast.Constant, ast.JoinedStr)):
                        P &= ~A.bit(a)
                p_ = _eq_parts(a[2:])
                if value is not None and p_ is not None and p_[0] == "eq" and p_[1] == name and isinstance(value, ast.Constant):
                    P = (P & A.bit(a)) if repr(value.value) == p_[2] else (P & ~A.bit(a))
        return P

    # -- running -----------------------------------------------------------------------------------
    def run(self) -> Summary:
        f, A = self.f, self.atoms
        init_vars = {}
        kinds = getattr(self.la, "root_kinds", {}).get(f.qualname, {})
        for p in f.params:
            b = A.bit(f"ch:{p}")
            kind = kinds.get(p) or self.la.param_kinds.get((f.qualname, p)) or ("tuple" if p == f.vararg else "array")
            fl = A.bit(f"b:{p}")
            if b is not None or fl is not None:
                init_vars[p] = VarInfo(chunk=b or 0, exact=True, kind=kind, flag=fl)
        init = (A.feasible, tuple(sorted(init_vars.items())))
        self._collect_refusal_loops()

        def join(a, b):
            if a == b:
                return a
            pa, va = a
            pb, vb = b
            return (pa | pb, tuple(sorted(self._join_vars(dict(va), dict(vb), pa, pb).items())))

        forward(self.cfg, init, self.transfer, edge=self.edge, join=join)
        ret = self.ret if self.ret is not None else NOCHUNK
        return Summary(A, list(self.sinks.values()), ret, ret.parts is not None, self.returns_when)

    def _collect_refusal_loops(self):
        """for X in ITER: if COND: raise   ->  a universally quantified fact about the elements of ITER"""
        for n in walk_own(self.f.node):
            if isinstance(n, ast.For) and len(n.body) == 1 and isinstance(n.body[0], ast.If) and not n.body[0].orelse \
                    and all(isinstance(s, ast.Raise) for s in n.body[0].body):
                leaves = []
                t = n.body[0].test
                if isinstance(t, ast.BoolOp) and isinstance(t.op, ast.And):
                    leaves = list(t.values)
                else:
                    leaves = [t]
                tg = tuple(x.id for x in ast.walk(n.target) if isinstance(x, ast.Name))
                self.refusals.append((norm(n.iter), tg, leaves))

    # -- helpers -------------------------------------------------------------------------------------
    def sink(self, node: ast.AST, what: str, cond: int, chain=()):
        self.la.sink_sites_seen += 1
        if not cond:
            self.la.guarded_sites.append(f"{self.f.qualname}: {what}")
            return
        key = (id(node), what)
        if key in self.sinks:
            self.sinks[key].cond |= cond
        else:
            self.sinks[key] = Sink(self.f.qualname, node, what, cond, chain)

    def ext_names(self, call: ast.Call) -> set[str]:
        ts = self.la.cg._expand(self.la.res.resolve(call.func, self.f, self.u))
        return {t.name for t in ts if t.kind == "ext"}

    # -- expression evaluation: chunkedness --------------------------------------------------------------
    def ch(self, e: ast.AST | None, P: int, vs: dict, data_use=False) -> VarInfo:
        """VarInfo of expression e under path set P; records sinks as a side effect"""
        A = self.atoms
        if e is None or isinstance(e, ast.Constant):
            return NOCHUNK
        if isinstance(e, ast.Name):
            return vs.get(e.id, NOCHUNK)
        if isinstance(e, ast.Attribute):
            base = self.ch(e.value, P, vs)
            if e.attr in METADATA_ATTRS:
                return NOCHUNK
            if e.attr in MATERIALISE_ATTRS and base.chunk & P:
                self.sink(e, f"{norm(e)[:50]} (.{e.attr} materialises)", base.chunk & P)
                return NOCHUNK
            if e.attr in MATERIALISE_ATTRS:
                self.sink(e, f"{norm(e)[:50]} (.{e.attr})", 0)
                return NOCHUNK
            return replace(base, flag=None, anyflag=None, parts=None, kind="array" if base.kind in ("tuple", "xr") else base.kind,
                           exact=base.exact and base.kind != "tuple")
        if isinstance(e, ast.Subscript):
            base = self.ch(e.value, P, vs)
            idx = self.ch(e.slice, P, vs)
            if base.kind == "tuple":
                if isinstance(e.slice, ast.Slice):
                    return VarInfo(chunk=base.chunk, exact=False, kind="tuple")
                if base.parts is not None and isinstance(e.slice, ast.Constant) and isinstance(e.slice.value, int) \
                        and -len(base.parts) <= e.slice.value < len(base.parts):
                    return base.parts[e.slice.value]
                return VarInfo(chunk=base.chunk, exact=base.exact and False, kind="array")
            return VarInfo(chunk=base.chunk | idx.chunk, exact=base.exact and not idx.chunk, kind=base.kind)
        if isinstance(e, ast.Starred):
            return self.ch(e.value, P, vs)
        if isinstance(e, (ast.Tuple, ast.List, ast.Set)):
            c, exact = 0, True
            parts = []
            for x in e.elts:
                v = self.ch(x, P, vs)
                c |= v.chunk
                exact = exact and v.exact
                parts.append(v)
            ok_parts = isinstance(e, (ast.Tuple, ast.List)) and not any(isinstance(x, ast.Starred) for x in e.elts)
            return VarInfo(chunk=c, exact=exact and len(e.elts) == 1, kind="tuple", parts=tuple(parts) if ok_parts else None)
        if isinstance(e, ast.Dict):
            c = 0
            for v in e.values:
                c |= self.ch(v, P, vs).chunk
            return VarInfo(chunk=c, exact=False, kind="other")
        if isinstance(e, ast.IfExp):
            t, fset, vt, vf = self.test(e.test, P, dict(vs))
            a = self.ch(e.body, t, vt) if t else NOCHUNK
            b = self.ch(e.orelse, fset, vf) if fset else NOCHUNK
            if not t:
                return b
            if not fset:
                return a
            return self._join_vars({0: a}, {0: b}, t, fset)[0]
        if isinstance(e, ast.BoolOp):
            # value context: operands but the last are coerced to bool
            cur_P, cur_vs = P, dict(vs)
            c = 0
            for i, v in enumerate(e.values):
                if i < len(e.values) - 1:
                    t, fset, vt, vf = self.test(v, cur_P, cur_vs)
                    if isinstance(e.op, ast.And):
                        cur_P, cur_vs = t, vt
                    else:
                        cur_P, cur_vs = fset, vf
                    if not cur_P:
                        break
                else:
                    c |= self.ch(v, cur_P, cur_vs).chunk
            return VarInfo(chunk=c, exact=False, kind="other", flag=self.truth(e, vs))
        if isinstance(e, ast.UnaryOp):
            if isinstance(e.op, ast.Not):
                self.test(e.operand, P, dict(vs))
                return VarInfo(flag=self.truth(e, vs), kind="other")
            return replace(self.ch(e.operand, P, vs), flag=None, anyflag=None)
        if isinstance(e, ast.BinOp):
            a, b = self.ch(e.left, P, vs), self.ch(e.right, P, vs)
            return VarInfo(chunk=a.chunk | b.chunk, exact=False, kind="array" if (a.chunk | b.chunk) else "other")
        if isinstance(e, ast.Compare):
            ops_identity = all(isinstance(o, (ast.Is, ast.IsNot, ast.In, ast.NotIn)) for o in e.ops)
            c = self.ch(e.left, P, vs).chunk
            for x in e.comparators:
                c |= self.ch(x, P, vs).chunk
            if ops_identity:
                return VarInfo(flag=self.truth(e, vs), kind="other")
            return VarInfo(chunk=c, exact=False, kind="array" if c else "other", flag=self.truth(e, vs))
        if isinstance(e, (ast.ListComp, ast.SetComp, ast.GeneratorExp, ast.DictComp)):
            return self.comprehension(e, P, vs)
        if isinstance(e, ast.NamedExpr):
            v = self.ch(e.value, P, vs)
            vs[e.target.id] = v
            return v
        if isinstance(e, ast.Call):
            return self.call(e, P, vs)
        if isinstance(e, (ast.JoinedStr, ast.FormattedValue, ast.Lambda, ast.Slice)):
            for chd in ast.iter_child_nodes(e):
                if isinstance(chd, ast.expr) and not isinstance(e, ast.Lambda):
                    self.ch(chd, P, vs)
            return NOCHUNK
        return NOCHUNK

    def comprehension(self, e, P: int, vs: dict) -> VarInfo:
        saved = list(getattr(self, "_active_refusals", []))
        try:
            return self._comprehension(e, P, vs)
        finally:
            self._active_refusals = saved

    def _comprehension(self, e, P: int, vs: dict) -> VarInfo:
        vs2 = dict(vs)
        curP = P
        for g in e.generators:
            it = self.ch(g.iter, curP, vs2)
            if it.kind == "array" and it.chunk & curP and not self._iter_is_container(g.iter):
                self.sink(g.iter, f"iteration over {norm(g.iter)[:40]}", it.chunk & curP)
            self.bind_iter(g.target, g.iter, it, curP, vs2)
            self.apply_refusals(g.iter, g.target, vs2, curP, e)
            for c in g.ifs:
                t, fset, vt, vf = self.test(c, curP, vs2)
                curP, vs2 = t, vt
        if isinstance(e, ast.DictComp):
            self.ch(e.key, curP, vs2)
            el = self.ch(e.value, curP, vs2)
        else:
            el = self.ch(e.elt, curP, vs2)
        # any(is_duck_dask_array(b) for b in bys): element flag 'may' semantics -> any() is true iff some element chunked
        exact = False
        chunk = el.chunk
        if len(e.generators) == 1 and not e.generators[0].ifs and not isinstance(e, ast.DictComp) and isinstance(e.generators[0].target, ast.Name):
            src = self.ch(e.generators[0].iter, P, dict(vs))
            if src.kind == "tuple" and src.exact and _element_preserving(e.elt, e.generators[0].target.id):
                exact, chunk = True, src.chunk
        return VarInfo(chunk=chunk, exact=exact, kind="tuple", anyflag=self._anyflag(e, vs))

    def _iter_is_container(self, it: ast.AST) -> bool:
        return isinstance(it, ast.Call) and norm(it.func) in ("zip", "enumerate", "range", "slices_from_chunks", "reversed", "sorted")

    def _anyflag(self, comp, vs) -> int | None:
        """tuple(is_duck_dask_array(b) for b in X): any(...) == chunk(X) when X is an exact tuple"""
        if len(comp.generators) == 1 and not comp.generators[0].ifs and not isinstance(comp, ast.DictComp):
            g = comp.generators[0]
            el = comp.elt
            if isinstance(el, ast.Call) and norm(el.func) in CHUNK_PREDICATES and el.args and isinstance(el.args[0], ast.Name) \
                    and isinstance(g.target, ast.Name) and el.args[0].id == g.target.id:
                src = vs.get(norm(g.iter)) if isinstance(g.iter, ast.Name) else None
                if src is not None and src.exact:
                    return src.chunk
            # any(flagtuple element) handled by the caller of any()
        return None

    def bind_iter(self, target: ast.AST, it_expr: ast.AST, it: VarInfo, P: int, vs: dict):
        """bind loop / comprehension targets to elements of the iterable"""
        if isinstance(it_expr, ast.Call) and norm(it_expr.func) == "zip" and isinstance(target, ast.Tuple) \
                and len(target.elts) == len(it_expr.args):
            for t, src in zip(target.elts, it_expr.args):
                sv = self.ch(src, P, vs)
                self.bind_iter(t, src, sv, P, vs)
            return
        if isinstance(it_expr, ast.Call) and norm(it_expr.func) == "enumerate" and isinstance(target, ast.Tuple) and len(target.elts) == 2 and it_expr.args:
            self._bind(target.elts[0], NOCHUNK, vs)
            self.bind_iter(target.elts[1], it_expr.args[0], self.ch(it_expr.args[0], P, vs), P, vs)
            return
        elem = VarInfo(chunk=it.chunk, exact=False, kind="array" if it.kind in ("tuple", "array") else it.kind,
                       flag=None if it.anyflag is None else None)
        if it.anyflag is not None:
            # element of a tuple of booleans: may be true only where any() is true
            elem = VarInfo(kind="other", flag=None, anyflag=None, chunk=0)
            elem = replace(elem, flag=None)
            self._may_flags = getattr(self, "_may_flags", {})
        self._bind(target, elem, vs, from_flagtuple=it.anyflag)

    def _bind(self, target: ast.AST, v: VarInfo, vs: dict, from_flagtuple=None):
        if isinstance(target, ast.Name):
            vs[target.id] = v
            if from_flagtuple is not None:
                vs[target.id] = VarInfo(kind="mayflag", chunk=from_flagtuple)   # may be true only within these valuations
        elif isinstance(target, (ast.Tuple, ast.List)):
            for t in target.elts:
                self._bind(t.value if isinstance(t, ast.Starred) else t, replace(v, exact=False, kind="array" if v.kind == "tuple" else v.kind), vs)

    def apply_refusals(self, it_expr: ast.AST, target: ast.AST, vs: dict, P: int, scope_node):
        """inside a loop over the same iterable as an earlier refusal loop, the refused condition is false"""
        txt = norm(it_expr)
        tg = tuple(x.id for x in ast.walk(target) if isinstance(x, ast.Name))
        for (itxt, rtg, leaves) in self.refusals:
            if itxt == txt and rtg == tg:
                self._active_refusals = getattr(self, "_active_refusals", []) + [leaves]

    # -- truth of boolean expressions ----------------------------------------------------------------------
    def truth(self, e: ast.AST, vs: dict) -> int | None:
        A = self.atoms
        if isinstance(e, ast.Constant):
            return A.ALL if e.value else 0
        if isinstance(e, ast.Name):
            v = vs.get(e.id)
            if v is not None and v.flag is not None:
                return v.flag
            b = A.bit(f"o:{e.id}")
            return b
        if isinstance(e, ast.UnaryOp) and isinstance(e.op, ast.Not):
            t = self.truth(e.operand, vs)
            return None if t is None else (A.ALL & ~t)
        if isinstance(e, ast.BoolOp):
            ts = [self.truth(v, vs) for v in e.values]
            if any(t is None for t in ts):
                return None
            out = ts[0]
            for t in ts[1:]:
                out = (out & t) if isinstance(e.op, ast.And) else (out | t)
            return out
        if isinstance(e, ast.Call):
            fn = norm(e.func)
            if fn in CHUNK_PREDICATES and e.args:
                v = self._info(e.args[0], vs)
                if v is not None and v.exact and v.kind != "tuple":
                    return v.chunk
                return None
            if fn == "any" and e.args:
                a = e.args[0]
                if isinstance(a, ast.Name):
                    v = vs.get(a.id)
                    if v is not None and v.anyflag is not None:
                        return v.anyflag
                if isinstance(a, (ast.GeneratorExp, ast.ListComp)):
                    return self._anyflag(a, vs)
            return None
        a, pol = atom_of(e)
        b = A.bit(f"o:{a}")
        if b is not None:
            return b if pol else (A.ALL & ~b)
        return None

    def _info(self, e: ast.AST, vs: dict) -> VarInfo | None:
        if isinstance(e, ast.Name):
            return vs.get(e.id, NOCHUNK)
        return None

    # -- tests: returns (P_true, P_false, vars_true, vars_false) ------------------------------------------------
    def test(self, e: ast.AST, P: int, vs: dict):
        A = self.atoms
        if isinstance(e, ast.BoolOp):
            if isinstance(e.op, ast.And):
                curP, curvs = P, dict(vs)
                Fs, Fvs = 0, None
                for v in e.values:
                    t, f_, vt, vf = self.test(v, curP, curvs)
                    if f_:
                        Fs |= f_
                        Fvs = vf if Fvs is None else self._join_vars(Fvs, vf)
                    curP, curvs = t, vt
                    if not curP:
                        break
                return curP, Fs, curvs, (Fvs if Fvs is not None else dict(vs))
            else:
                curP, curvs = P, dict(vs)
                Ts, Tvs = 0, None
                for v in e.values:
                    t, f_, vt, vf = self.test(v, curP, curvs)
                    if t:
                        Ts |= t
                        Tvs = vt if Tvs is None else self._join_vars(Tvs, vt)
                    curP, curvs = f_, vf
                    if not curP:
                        break
                return Ts, curP, (Tvs if Tvs is not None else dict(vs)), curvs
        if isinstance(e, ast.UnaryOp) and isinstance(e.op, ast.Not):
            t, f_, vt, vf = self.test(e.operand, P, vs)
            return f_, t, vf, vt
        # leaf
        vt, vf = dict(vs), dict(vs)
        if isinstance(e, ast.Call) and norm(e.func) in IMPLIES_CHUNKED and e.args:
            info = self.ch(e.args[0], P, vs)
            return P & info.chunk, P, vt, vf
        if isinstance(e, ast.Call) and norm(e.func) in CHUNK_PREDICATES | DUCK_PREDICATES and e.args:
            arg = e.args[0]
            info = self.ch(arg, P, vs)
            fn = norm(e.func)
            if fn in CHUNK_PREDICATES:
                if info.exact and info.kind != "tuple":
                    return P & info.chunk, P & ~info.chunk, vt, vf
                # 'may' variable: true branch needs the possibility; false branch learns it is not chunked
                if isinstance(arg, ast.Name):
                    vf[arg.id] = replace(vs.get(arg.id, NOCHUNK), chunk=0, exact=True)
                    self._refusal_learn(arg.id, vt, vf)
                return P & info.chunk, P, vt, vf
            else:
                # not a duck array => certainly not chunked
                if isinstance(arg, ast.Name):
                    vf[arg.id] = replace(vs.get(arg.id, NOCHUNK), chunk=0, exact=True)
                if info.exact and info.kind != "tuple":
                    return P, P & ~info.chunk, vt, vf
                return P, P, vt, vf
        # mayflag element (is_dask from a tuple of booleans)
        if isinstance(e, ast.Name) and vs.get(e.id) is not None and vs[e.id].kind == "mayflag":
            return P & vs[e.id].chunk, P, vt, vf
        tr = self.truth(e, vs)
        info = self.ch(e, P, vs)     # records sinks inside the expression
        self._refusal_test(e, vt, vf)
        if tr is not None:
            return P & tr, P & ~tr, vt, vf
        # boolean coercion of something computed from a chunked array's data materialises it
        if info.chunk & P and info.kind in ("array",):
            self.sink(e, f"truth value of {norm(e)[:50]} (computed from a possibly chunked array)", info.chunk & P)
        return P, P, vt, vf

    def _refusal_test(self, e: ast.AST, vt: dict, vf: dict):
        """within a loop over a refused iterable: if all leaves of the refused conjunction but one are known true, the last is false"""
        for leaves in getattr(self, "_active_refusals", []):
            txts = [norm(l) for l in leaves]
            if norm(e) in txts and len(leaves) == 2:
                other = leaves[1 - txts.index(norm(e))]
                if isinstance(other, ast.Call) and norm(other.func) in CHUNK_PREDICATES and other.args and isinstance(other.args[0], ast.Name):
                    nm = other.args[0].id
                    vt[nm] = replace(vt.get(nm, NOCHUNK), chunk=0, exact=True)

    def _refusal_learn(self, name, vt, vf):
        pass

    @staticmethod
    def _join_vars(a: dict, b: dict, pa: int | None = None, pb: int | None = None) -> dict:
        """join of variable infos; with the path sets of both sides 'exact' survives when the sides agree where both are possible"""
        out = {}
        for k in set(a) | set(b):
            x, y = a.get(k, NOCHUNK), b.get(k, NOCHUNK)
            if x == y:
                out[k] = x
                continue
            if pa is not None and pb is not None:
                cx, cy = x.chunk & pa, y.chunk & pb
                both = pa & pb
                exact = (x.exact or not cx) and (y.exact or not cy) and (cx & both) == (cy & both)
                chunk = cx | cy
                fl = None
                if x.flag is not None and y.flag is not None and (x.flag & both) == (y.flag & both):
                    fl = (x.flag & pa) | (y.flag & pb)
                af = None
                if x.anyflag is not None and y.anyflag is not None and (x.anyflag & both) == (y.anyflag & both):
                    af = (x.anyflag & pa) | (y.anyflag & pb)
            else:
                chunk, exact = x.chunk | y.chunk, x.exact and y.exact and x.chunk == y.chunk
                fl = x.flag if x.flag == y.flag else None
                af = x.anyflag if x.anyflag == y.anyflag else None
            parts = None
            if x.parts is not None and y.parts is not None and len(x.parts) == len(y.parts):
                parts = tuple(_FuncLazy._join_vars({0: p}, {0: q}, pa, pb)[0] for p, q in zip(x.parts, y.parts))
            out[k] = VarInfo(chunk=chunk, exact=exact, kind=x.kind if x.kind == y.kind else ("array" if "array" in (x.kind, y.kind) else "other"),
                             flag=fl, anyflag=af, parts=parts,
                             eager_ctor=((x.eager_ctor & pa) | (y.eager_ctor & pb)) if (pa is not None and pb is not None) else (x.eager_ctor | y.eager_ctor))
        return out

    # -- calls ---------------------------------------------------------------------------------------------
    def call(self, call: ast.Call, P: int, vs: dict) -> VarInfo:
        A = self.atoms
        fn = norm(call.func)
        args = [self.ch(a, P, vs) for a in call.args]
        kws = {k.arg: self.ch(k.value, P, vs) for k in call.keywords}
        if fn in CHUNK_PREDICATES | DUCK_PREDICATES | IMPLIES_CHUNKED:
            return VarInfo(kind="other", flag=self.truth(call, vs))
        if fn == "any" or fn == "all":
            return VarInfo(kind="other", flag=self.truth(call, vs))
        if fn in ("isinstance", "len", "type", "hasattr", "callable", "id", "repr", "str", "print", "getattr"):
            return NOCHUNK
        if fn in ("tuple",) and call.args:
            a = args[0]
            return replace(a, kind="tuple")
        recv = None
        if isinstance(call.func, ast.Attribute):
            recv = self.ch(call.func.value, P, vs)
            m = call.func.attr
            if m in MATERIALISE_METHODS:
                self.sink(call, f"{norm(call.func)[:50]}() materialises", recv.chunk & P)
                return NOCHUNK
        ext = self.ext_names(call)
        targets = self.la.cg._expand(self.la.res.resolve(call.func, self.f, self.u))
        flox = sorted({t.name for t in targets if t.kind == "func" and t.name in self.la.prog.funcs})
        if not flox and not ext and isinstance(call.func, ast.Attribute):
            if call.func.attr in ("finalize", "preprocess"):
                scan_ctx = "scan" in self.f.qualname.lower() or "Scan" in norm(self.f.node.args)
                flox = sorted(q for q in self.la.ctx.registry.slot_funcs(call.func.attr, "scan" if scan_ctx else "agg") if q in self.la.prog.funcs)
            else:
                c = self.la.cg._methods.get(call.func.attr, [])
                if len(c) == 1:
                    flox = c
        if any(n in EAGER_CONSTRUCTORS for n in ext):
            return VarInfo(kind="array", eager_ctor=P)
        for name in ext:
            pos = MATERIALISE_FUNCS.get(name)
            if pos is not None:
                for i in pos:
                    if i < len(args):
                        a = args[i]
                        self.sink(call, f"{name}({norm(call.args[i])[:40]}) materialises", a.chunk & P if a.kind != "other" or a.chunk else 0)
                if name in ("numpy.asarray", "numpy.array", "numpy.asanyarray"):
                    return NOCHUNK
                return NOCHUNK
        if any(n in CHUNKED_MAKERS for n in ext) or (isinstance(call.func, ast.Attribute) and call.func.attr in ("rechunk", "map_blocks", "persist") and not flox):
            return VarInfo(chunk=A.ALL, exact=True, kind="array")
        if flox:
            out = None
            for q in flox:
                r = self.apply_summary(q, call, args, kws, P, vs, targets)
                out = r if out is None else self._join_ret(out, r)
            return out if out is not None else NOCHUNK
        if any(t.kind == "class" for t in targets):
            c = 0
            for a in args + list(kws.values()):
                c |= a.chunk
            return VarInfo(chunk=c, exact=False, kind="other")
        # any other call: the result is lazy iff computed from a lazy receiver / argument (method on a dask array, numpy ufunc ...)
        c = recv.chunk if recv is not None else 0
        contributors = [recv] if recv is not None and recv.chunk else []
        for a in args + list(kws.values()):
            if a.kind in ("array", "tuple", "xr") and a.chunk:
                c |= a.chunk
                contributors.append(a)
        exact = len(contributors) == 1 and contributors[0].exact and contributors[0].kind == "array"
        return VarInfo(chunk=c, exact=exact, kind="array" if c else "other")

    @staticmethod
    def _join_ret(a: VarInfo, b: VarInfo) -> VarInfo:
        parts = None
        if a.parts is not None and b.parts is not None and len(a.parts) == len(b.parts):
            parts = tuple(_FuncLazy._join_ret(x, y) for x, y in zip(a.parts, b.parts))
        return VarInfo(chunk=a.chunk | b.chunk, exact=a.exact and b.exact and a.chunk == b.chunk, kind=a.kind if a.kind == b.kind else "other",
                       parts=parts)

    def apply_summary(self, q: str, call: ast.Call, args, kws, P: int, vs: dict, targets):
        g = self.la.prog.funcs[q]
        if q in self.la.exempt_funcs:
            return NOCHUNK
        # bind arguments to parameters
        bound: dict[str, tuple[VarInfo, ast.AST | None]] = {}
        pp = list(g.positional_params)
        if g.cls and pp and pp[0] in ("self", "cls"):
            pp = pp[1:]
        offset = 0
        for t in targets:
            offset = max(offset, self._bind_partial(t, g, bound, P, vs))
        i = 0
        for a_node, a in zip(call.args, args):
            if isinstance(a_node, ast.Starred):
                for p in pp[i + offset:]:
                    bound.setdefault(p, (replace(a, exact=False, kind="array"), None))
                if g.vararg:
                    bound[g.vararg] = (replace(a, kind="tuple"), a_node.value)
                break
            if i + offset < len(pp):
                bound[pp[i + offset]] = (a, a_node)
            elif g.vararg:
                prev = bound.get(g.vararg, (VarInfo(kind="tuple"), None))[0]
                bound[g.vararg] = (VarInfo(chunk=prev.chunk | a.chunk, exact=False, kind="tuple"), None)
            i += 1
        for k in call.keywords:
            if k.arg is None:
                v = kws[None]
                for p in g.params:
                    if p not in bound and v.chunk:
                        bound[p] = (replace(v, exact=False, kind="array"), None)
                continue
            if k.arg in g.params:
                bound[k.arg] = (kws[k.arg], k.value)
        # register which parameters of g may be chunked / are flags with known truth (monotone, drives the outer fixpoint)
        cp = self.la.chunk_params.setdefault(q, set())
        fp = self.la.flag_params.setdefault(q, set())
        for p, (v, node) in bound.items():
            if v.chunk & P and v.kind != "mayflag":
                cp.add(p)
                if v.kind == "tuple":
                    self.la.param_kinds[(q, p)] = "tuple"
            if v.flag is not None and v.flag not in (0, self.atoms.ALL) and v.kind == "other":
                fp.add(p)
            elif node is not None and isinstance(node, ast.Name) and vs.get(node.id) is not None and vs[node.id].flag is not None:
                fp.add(p)
        s = self.la.summary(q)
        self.la.analysed_calls += 1
        if s is None:
            return NOCHUNK
        GA = s.atoms
        # for every callee atom: caller bitset where it may be true / may be false
        may_true, may_false = [], []
        for a in GA.names:
            kind, name = a.split(":", 1)
            if kind == "ch":
                v = bound.get(name, (NOCHUNK, None))[0]
                mt = v.chunk
                mf = (self.atoms.ALL & ~v.chunk) if (v.exact and v.kind != "tuple") else self.atoms.ALL
                if v.kind == "tuple" and v.exact:
                    mf = self.atoms.ALL & ~v.chunk
            elif kind == "b":
                v = bound.get(name, (None, None))[0]
                if v is not None and v.flag is not None:
                    mt, mf = v.flag, self.atoms.ALL & ~v.flag
                elif name not in bound:
                    d = _default_of(g, name)
                    mt, mf = (self.atoms.ALL, 0) if d is True else ((0, self.atoms.ALL) if d in (False, None) and d is not _NODEFAULT else (self.atoms.ALL, self.atoms.ALL))
                else:
                    mt = mf = self.atoms.ALL
            else:
                # opaque atom of the callee: same text in the caller?
                b = self.atoms.bit(a)
                node_txt = a[2:]
                mapped = None
                # the callee tests one of its parameters against a constant: translate through the argument expression
                p_ = _eq_parts(node_txt)
                if p_ is not None and p_[1] in bound and bound[p_[1]][1] is not None:
                    arg_txt = norm(bound[p_[1]][1])
                    cand = node_txt.replace(p_[1], arg_txt, 1)
                    mapped = self.atoms.bit(f"o:{cand}")
                    if mapped is None and isinstance(bound[p_[1]][1], ast.Constant):
                        val = repr(bound[p_[1]][1].value)
                        if p_[0] == "eq":
                            mapped = self.atoms.ALL if val == p_[2] else 0
                        else:
                            mapped = self.atoms.ALL if val in p_[2] else 0
                if mapped is None:
                    mapped = b
                if mapped is None:
                    mt = mf = self.atoms.ALL
                else:
                    mt, mf = mapped, self.atoms.ALL & ~mapped
            may_true.append(mt)
            may_false.append(mf)

        def compat(v: int) -> int:
            """caller valuations (within P) compatible with callee valuation v"""
            w = P
            for i in range(GA.n):
                w &= may_true[i] if (v >> i & 1) else may_false[i]
                if not w:
                    break
            return w

        cache: dict[int, int] = {}

        def lift(bits: int) -> int:
            out = 0
            for v in GA.valuations(bits & GA.feasible):
                if v not in cache:
                    cache[v] = compat(v)
                out |= cache[v]
            return out

        for sk in s.sinks:
            cond = lift(sk.cond)
            site = f"{q}: {sk.what}"
            self.sink(call, f"call {q}(...): {sk.what}", cond, chain=((sk.func, f"{self.la.prog.funcs[sk.func].where(sk.node)} {sk.what}"),) + sk.chain)
        all_exact = all(may_true[i] & may_false[i] & P == 0 for i in range(GA.n))

        def conv(r: VarInfo) -> VarInfo:
            return VarInfo(chunk=lift(r.chunk), exact=r.exact and all_exact, kind=r.kind,
                           parts=None if r.parts is None else tuple(conv(x) for x in r.parts))
        return conv(s.ret)

    def _bind_partial(self, t, g: Func, bound: dict, P: int, vs: dict) -> int:
        if t.kind != "partial":
            return 0
        n = self._bind_partial(t.parts[0], g, bound, P, vs)
        pc = self.la.res.partial_nodes.get(t.node_id)
        if pc is None:
            return n
        pp = list(g.positional_params)
        for i, a in enumerate(pc.args[1:]):
            if n + i < len(pp):
                bound[pp[n + i]] = (self.ch(a, P, dict(vs)), a)
        for k in pc.keywords:
            if k.arg and k.arg in g.params:
                bound[k.arg] = (self.ch(k.value, P, dict(vs)), k.value)
            elif k.arg is None:
                # partial(f, **kwargs): dict built in this function -> look for literal keys
                src = k.value
                if isinstance(src, ast.Name):
                    for kind, node in self.la.res.scope(self.f).bind.get(src.id, []):
                        if kind == "assign" and isinstance(node, ast.Call) and norm(node.func) == "dict":
                            for kk in node.keywords:
                                if kk.arg in g.params:
                                    bound[kk.arg] = (self.ch(kk.value, P, dict(vs)), kk.value)
        return n + len(pc.args) - 1

    # -- transfer / edge -----------------------------------------------------------------------------------------
    def transfer(self, n: Node, state):
        P, vtuple = state
        a = n.ast
        if a is None or n.kind in ("entry", "exit", "raise", "join", "test"):
            return state
        vs = dict(vtuple)
        if n.kind == "for":
            it = self.ch(a.iter, P, vs)
            if it.kind == "array" and it.chunk & P and not self._iter_is_container(a.iter):
                self.sink(a.iter, f"iteration over {norm(a.iter)[:40]}", it.chunk & P)
            self.bind_iter(a.target, a.iter, it, P, vs)
            return (P, tuple(sorted(vs.items())))
        if n.kind == "with":
            for item in a.items:
                self.ch(item.context_expr, P, vs)
                if item.optional_vars is not None:
                    self._bind(item.optional_vars, NOCHUNK, vs)
            return (P, tuple(sorted(vs.items())))
        if n.kind in ("except", "case"):
            return state
        if isinstance(a, ast.Assign):
            v = self.ch(a.value, P, vs)
            for t in a.targets:
                self.assign(t, a.value, v, P, vs)
                for nm in ast.walk(t):
                    if isinstance(nm, ast.Name) and isinstance(nm.ctx, ast.Store):
                        P = self.rebind_atoms(nm.id, a.value if isinstance(t, ast.Name) else None, P)
            if not P:
                P = 0
            return (P, tuple(sorted(vs.items())))
        if isinstance(a, ast.AnnAssign):
            if a.value is not None:
                self.assign(a.target, a.value, self.ch(a.value, P, vs), P, vs)
                if isinstance(a.target, ast.Name):
                    P = self.rebind_atoms(a.target.id, a.value, P)
            return (P, tuple(sorted(vs.items())))
        if isinstance(a, ast.AugAssign):
            v = self.ch(a.value, P, vs)
            if isinstance(a.target, ast.Name):
                cur = vs.get(a.target.id, NOCHUNK)
                vs[a.target.id] = VarInfo(chunk=cur.chunk | v.chunk, exact=False, kind=cur.kind)
            return (P, tuple(sorted(vs.items())))
        if isinstance(a, ast.Return):
            self.returns_when |= P
            if a.value is not None:
                if isinstance(a.value, ast.Tuple) and not any(isinstance(x, ast.Starred) for x in a.value.elts):
                    vals = tuple(replace(self.ch(x, P, vs), ) for x in a.value.elts)
                    vals = tuple(replace(x, chunk=x.chunk & P) for x in vals)
                    c = 0
                    for x in vals:
                        c |= x.chunk
                    v = VarInfo(chunk=c, exact=False, kind="tuple", parts=vals)
                else:
                    v = self.ch(a.value, P, vs)
                    v = replace(v, chunk=v.chunk & P, parts=None if v.parts is None else tuple(replace(x, chunk=x.chunk & P) for x in v.parts))
                first = v.parts[0] if v.parts else v
                if first.eager_ctor & P:
                    # an in-memory array is returned on a path on which an array parameter may still be chunked
                    for pname in self.f.params:
                        b = self.atoms.bit(f"ch:{pname}")
                        info = vs.get(pname)
                        if b is not None and (first.eager_ctor & P & b) and self._param_kind(pname) == "array":
                            self.sink(a, f"returns an in-memory array built by a NumPy constructor ({norm(a.value)[:40]}) although {pname!r} may be chunked "
                                      "(the caller gets an eager result instead of a lazy one)", P & b)
                if self.ret is None:
                    self.ret, self._retP = v, P
                else:
                    self.ret = self._join_vars({0: self.ret}, {0: v}, self._retP, P)[0]
                    self._retP |= P
            return state
        if isinstance(a, ast.Expr):
            self.ch(a.value, P, vs)
            return (P, tuple(sorted(vs.items())))
        if isinstance(a, ast.Raise):
            return state
        if isinstance(a, (ast.FunctionDef, ast.AsyncFunctionDef, ast.ClassDef, ast.Import, ast.ImportFrom)):
            return state
        return state

    def assign(self, target: ast.AST, value_node: ast.AST, v, P: int, vs: dict):
        if isinstance(target, ast.Name):
            vs[target.id] = v
        elif isinstance(target, (ast.Tuple, ast.List)):
            nstar = [i for i, t in enumerate(target.elts) if isinstance(t, ast.Starred)]
            if v.parts is not None and len(v.parts) == len(target.elts) and not nstar:
                for t, x in zip(target.elts, v.parts):
                    self.assign(t, value_node, x, P, vs)
            elif v.parts is not None and len(nstar) == 1 and nstar[0] == len(target.elts) - 1 and len(v.parts) >= len(target.elts) - 1:
                for t, x in zip(target.elts[:-1], v.parts):
                    self.assign(t, value_node, x, P, vs)
                self.assign(target.elts[-1].value, value_node, VarInfo(kind="other"), P, vs)
            elif isinstance(value_node, (ast.Tuple, ast.List)) and len(value_node.elts) == len(target.elts):
                for t, xn in zip(target.elts, value_node.elts):
                    self.assign(t, xn, self.ch(xn, P, vs), P, vs)
            else:
                vv = v
                # (by_,) = bys : a 1-tuple's single element is exactly as chunked as the tuple
                single = len(target.elts) == 1
                for t in target.elts:
                    if isinstance(t, ast.Starred):
                        t = t.value
                    self.assign(t, value_node, VarInfo(chunk=vv.chunk, exact=vv.exact and single, kind="array" if vv.kind == "tuple" else vv.kind), P, vs)
        # stores into containers / attributes do not change chunkedness facts we track

    def edge(self, n: Node, lab, state):
        P, vtuple = state
        if n.kind == "test" and lab in ("T", "F"):
            vs = dict(vtuple)
            t, f_, vt, vf = self.test(n.ast, P, vs)
            newP, newvs = (t, vt) if lab == "T" else (f_, vf)
            if not newP:
                return None
            return (newP, tuple(sorted(newvs.items())))
        if lab == "exc":
            return state
        return state


def _element_preserving(elt: ast.AST, var: str) -> bool:
    """the element expression is chunked iff the loop variable is: `b`, `f(b) if not is_duck_array(b) else b`"""
    if isinstance(elt, ast.Name):
        return elt.id == var
    if isinstance(elt, ast.IfExp):
        t = elt.test
        neg = isinstance(t, ast.UnaryOp) and isinstance(t.op, ast.Not)
        inner = t.operand if neg else t
        if isinstance(inner, ast.Call) and norm(inner.func) in DUCK_PREDICATES | CHUNK_PREDICATES and inner.args and norm(inner.args[0]) == var:
            keep = elt.orelse if neg else elt.body
            return isinstance(keep, ast.Name) and keep.id == var
    return False


class _NoDefault:
    pass


_NODEFAULT = _NoDefault()


def _default_of(g: Func, name: str):
    a = g.node.args
    pos = [x.arg for x in a.posonlyargs + a.args]
    for n, d in zip(pos[len(pos) - len(a.defaults):], a.defaults):
        if n == name:
            return d.value if isinstance(d, ast.Constant) else _NODEFAULT
    for x, d in zip(a.kwonlyargs, a.kw_defaults):
        if x.arg == name and d is not None:
            return d.value if isinstance(d, ast.Constant) else _NODEFAULT
    return _NODEFAULT
