"""Program model: units, functions, module-level bindings, imports.

Stdlib only (ast + symtable).  Fails closed (AnalysisError -> exit 2) when an
expected unit or anchor is missing.
"""
from __future__ import annotations

import ast
import os
import symtable
from dataclasses import dataclass, field


class AnalysisError(Exception):
    """The analysis itself could not be carried out (exit 2, never a VIOLATION)."""


REPO = os.environ.get("FLOXSA_REPO", "/repo")

# Units of the library.  visualize.py is plotting only and is excluded (listed in evidence).
EXPECTED_UNITS = [
    "__init__", "aggregate_flox", "aggregate_npg", "aggregate_numbagg", "aggregations",
    "cache", "core", "dask_array_ops", "lib", "types", "xarray", "xrdtypes", "xrutils",
]
EXCLUDED_UNITS = {"visualize": "plotting helpers only; no API- or task-reachable code",
                  "_version": "generated version stub"}


def norm(node: ast.AST | None) -> str:
    """Normalised source text of a node (formatting independent)."""
    if node is None:
        return "<none>"
    try:
        return ast.unparse(node)
    except Exception:  # pragma: no cover
        return ast.dump(node)


@dataclass
class Func:
    unit: "Unit"
    qualname: str              # e.g. "core.groupby_reduce", "core.f.g", "aggregations.Aggregation.__init__"
    node: ast.FunctionDef | ast.Lambda
    parent: "Func | None"
    cls: str | None
    is_overload: bool = False
    _params: list[str] | None = None

    @property
    def name(self) -> str:
        return self.qualname.rsplit(".", 1)[-1]

    @property
    def lineno(self) -> int:
        return self.node.lineno

    @property
    def params(self) -> list[str]:
        if self._params is None:
            a = self.node.args
            ps = [x.arg for x in a.posonlyargs + a.args]
            if a.vararg:
                ps.append(a.vararg.arg)
            ps += [x.arg for x in a.kwonlyargs]
            if a.kwarg:
                ps.append(a.kwarg.arg)
            self._params = ps
        return self._params

    @property
    def positional_params(self) -> list[str]:
        a = self.node.args
        return [x.arg for x in a.posonlyargs + a.args]

    @property
    def kwonly_params(self) -> list[str]:
        return [x.arg for x in self.node.args.kwonlyargs]

    @property
    def vararg(self) -> str | None:
        return self.node.args.vararg.arg if self.node.args.vararg else None

    @property
    def kwarg(self) -> str | None:
        return self.node.args.kwarg.arg if self.node.args.kwarg else None

    @property
    def body(self) -> list[ast.stmt]:
        if isinstance(self.node, ast.Lambda):
            return [ast.Return(value=self.node.body, lineno=self.node.lineno, col_offset=0)]
        return self.node.body

    def where(self, node: ast.AST | None = None) -> str:
        ln = getattr(node, "lineno", None) or self.lineno
        return f"{self.unit.relpath}:{ln}"

    def __hash__(self):
        return hash(self.qualname)

    def __eq__(self, other):
        return isinstance(other, Func) and other.qualname == self.qualname

    def __repr__(self):
        return f"<Func {self.qualname}>"


@dataclass
class Unit:
    name: str
    path: str
    relpath: str
    src: str
    tree: ast.Module
    # module-level: name -> list of value nodes bound to it (Assign / AnnAssign), in order
    bindings: dict[str, list[ast.expr]] = field(default_factory=dict)
    # name -> ("module", dotted) | ("from", dotted_module, attr)
    imports: dict[str, tuple] = field(default_factory=dict)
    funcs: dict[str, Func] = field(default_factory=dict)   # top-level name -> Func (last def wins)
    classes: dict[str, ast.ClassDef] = field(default_factory=dict)
    nlines: int = 0


class Program:
    def __init__(self, repo: str = REPO, extra_dirs: tuple[str, ...] = ()):
        self.repo = repo
        self.units: dict[str, Unit] = {}
        self.funcs: dict[str, Func] = {}      # qualname -> Func (overload stubs excluded)
        self.overloads: list[Func] = []
        self.lambdas: list[Func] = []
        self._load()

    # ------------------------------------------------------------------ loading
    def _load(self) -> None:
        pkg = os.path.join(self.repo, "flox")
        if not os.path.isdir(pkg):
            raise AnalysisError(f"package directory {pkg} not found")
        for fn in sorted(os.listdir(pkg)):
            if not fn.endswith(".py"):
                continue
            name = fn[:-3]
            if name in EXCLUDED_UNITS:
                continue
            path = os.path.join(pkg, fn)
            with open(path, encoding="utf-8") as fh:
                src = fh.read()
            try:
                tree = ast.parse(src, filename=path)
            except SyntaxError as e:
                raise AnalysisError(f"cannot parse {path}: {e}") from e
            u = Unit(name=name, path=path, relpath=f"flox/{fn}", src=src, tree=tree,
                     nlines=src.count("\n") + 1)
            self.units[name] = u
        missing = [u for u in EXPECTED_UNITS if u not in self.units]
        if missing:
            raise AnalysisError(f"expected units missing: {missing}")
        for u in self.units.values():
            self._index_unit(u)

    def _index_unit(self, u: Unit) -> None:
        self._index_block(u, u.tree.body, toplevel=True)
        for node in u.tree.body:
            self._collect_funcs(u, node, parent=None, cls=None, prefix=u.name)
        # also functions nested in module-level if/try blocks
        for node in ast.walk(u.tree):
            pass

    def _index_block(self, u: Unit, body: list[ast.stmt], toplevel: bool) -> None:
        for st in body:
            if isinstance(st, ast.Import):
                for al in st.names:
                    if al.asname:
                        u.imports[al.asname] = ("module", al.name)
                    else:
                        u.imports[al.name.split(".")[0]] = ("module", al.name.split(".")[0])
            elif isinstance(st, ast.ImportFrom):
                mod = self._abs_module(u, st.module, st.level)
                for al in st.names:
                    u.imports[al.asname or al.name] = ("from", mod, al.name)
            elif isinstance(st, ast.Assign):
                for t in st.targets:
                    if isinstance(t, ast.Name):
                        u.bindings.setdefault(t.id, []).append(st.value)
            elif isinstance(st, ast.AnnAssign):
                if isinstance(st.target, ast.Name) and st.value is not None:
                    u.bindings.setdefault(st.target.id, []).append(st.value)
            elif isinstance(st, ast.ClassDef):
                u.classes[st.name] = st
            elif isinstance(st, (ast.If, ast.Try)):
                # module-level conditional imports / definitions
                blocks = [st.body, st.orelse]
                if isinstance(st, ast.Try):
                    blocks += [h.body for h in st.handlers] + [st.finalbody]
                for b in blocks:
                    self._index_block(u, b, toplevel=False)

    @staticmethod
    def _abs_module(u: Unit, module: str | None, level: int) -> str:
        if level == 0:
            return module or ""
        # relative to package "flox"
        base = "flox"
        return base + ("." + module if module else "")

    def _collect_funcs(self, u: Unit, node: ast.AST, parent: Func | None, cls: str | None, prefix: str) -> None:
        if isinstance(node, (ast.FunctionDef, ast.AsyncFunctionDef)):
            qn = f"{prefix}.{node.name}"
            is_ov = any(norm(d) in ("overload", "typing.overload") for d in node.decorator_list)
            f = Func(unit=u, qualname=qn, node=node, parent=parent, cls=cls, is_overload=is_ov)
            if is_ov:
                self.overloads.append(f)
                return
            self.funcs[qn] = f
            if parent is None and cls is None:
                u.funcs[node.name] = f
            for ch in node.body:
                self._collect_nested(u, ch, f, qn)
        elif isinstance(node, ast.ClassDef):
            for ch in node.body:
                self._collect_funcs(u, ch, parent=None, cls=node.name, prefix=f"{prefix}.{node.name}")
        elif isinstance(node, (ast.If, ast.Try, ast.With)):
            blocks = [getattr(node, "body", []), getattr(node, "orelse", [])]
            if isinstance(node, ast.Try):
                blocks += [h.body for h in node.handlers] + [node.finalbody]
            for b in blocks:
                for ch in b:
                    self._collect_funcs(u, ch, parent, cls, prefix)

    def _collect_nested(self, u: Unit, node: ast.AST, parent: Func, prefix: str) -> None:
        """Find defs nested anywhere inside a function body (not crossing into them twice)."""
        if isinstance(node, (ast.FunctionDef, ast.AsyncFunctionDef)):
            self._collect_funcs(u, node, parent=parent, cls=None, prefix=prefix)
            return
        if isinstance(node, ast.ClassDef):
            return
        for ch in ast.iter_child_nodes(node):
            self._collect_nested(u, ch, parent, prefix)

    # ------------------------------------------------------------------ helpers
    def func(self, qualname: str) -> Func:
        f = self.funcs.get(qualname)
        if f is None:
            raise AnalysisError(f"anchor function {qualname} not found in the tree under analysis")
        return f

    def has_func(self, qualname: str) -> bool:
        return qualname in self.funcs

    def unit(self, name: str) -> Unit:
        if name not in self.units:
            raise AnalysisError(f"unit {name} missing")
        return self.units[name]

    def all_funcs(self) -> list[Func]:
        return list(self.funcs.values())

    def summary(self) -> dict:
        return {
            "repo": self.repo,
            "units": sorted(self.units),
            "excluded_units": EXCLUDED_UNITS,
            "lines": sum(u.nlines for u in self.units.values()),
            "functions": len(self.funcs),
            "overload_stubs": len(self.overloads),
        }


def func_locals(f: Func) -> set[str]:
    """Names bound in the function's own scope (params, assignments, for targets, imports, defs ...)."""
    out: set[str] = set(f.params)
    declared_global: set[str] = set()

    class V(ast.NodeVisitor):
        def visit_FunctionDef(self, n):
            if n is f.node:
                for st in n.body:
                    self.visit(st)
            else:
                out.add(n.name)

        visit_AsyncFunctionDef = visit_FunctionDef

        def visit_Lambda(self, n):
            if n is f.node:
                self.visit(n.body)

        def visit_ClassDef(self, n):
            out.add(n.name)

        def visit_Name(self, n):
            if isinstance(n.ctx, (ast.Store, ast.Del)):
                out.add(n.id)

        def visit_Global(self, n):
            declared_global.update(n.names)

        def visit_Nonlocal(self, n):
            declared_global.update(n.names)

        def visit_Import(self, n):
            for al in n.names:
                out.add(al.asname or al.name.split(".")[0])

        def visit_ImportFrom(self, n):
            for al in n.names:
                out.add(al.asname or al.name)

        def visit_ListComp(self, n):
            # comprehension targets are local to the comprehension; only the first iter is outer
            self.visit(n.generators[0].iter)

        visit_SetComp = visit_GeneratorExp = visit_ListComp

        def visit_DictComp(self, n):
            self.visit(n.generators[0].iter)

        def visit_NamedExpr(self, n):
            out.add(n.target.id)
            self.visit(n.value)

        def visit_ExceptHandler(self, n):
            if n.name:
                out.add(n.name)
            for st in n.body:
                self.visit(st)

        def visit_MatchAs(self, n):
            if n.name:
                out.add(n.name)
            if n.pattern:
                self.visit(n.pattern)

    V().visit(f.node)
    return out - declared_global


def walk_own(node: ast.AST):
    """ast.walk that does not descend into nested function/class/lambda bodies (but yields them)."""
    stack = [node]
    first = True
    while stack:
        n = stack.pop()
        yield n
        if not first and isinstance(n, (ast.FunctionDef, ast.AsyncFunctionDef, ast.Lambda, ast.ClassDef)):
            continue
        first = False
        stack.extend(reversed(list(ast.iter_child_nodes(n))))
