"""CLI: python -m floxsa <property> [--tier quick|thorough] [--replay path]

exit 0: every rule instance holds (KNOWN-FINDING lines allowed)
exit 1: VIOLATION property=<id> replay=<path>
exit 2: ANALYSIS-ERROR (the analysis could not be carried out; never a verdict)
"""
from __future__ import annotations

import argparse
import json
import os
import sys
import time
import traceback

from .model import AnalysisError
from .report import load_known, write_evidence, write_replay


def run_property(prop: str, tier: str, repo: str | None = None, write=True, quiet=False, only_keys=None):
    from .context import Context
    from .properties import PROPERTIES

    if prop not in PROPERTIES:
        raise AnalysisError(f"no check registered for property {prop}")
    spec = PROPERTIES[prop]
    t0 = time.time()
    ctx = Context(repo, tier)
    out = (lambda *a: None) if quiet else print
    ps = ctx.prog.summary()
    out(f"[floxsa] property={prop} tier={tier} repo={ctx.repo} units={len(ps['units'])} lines={ps['lines']} "
        f"functions={ps['functions']} (+{ps['overload_stubs']} overload stubs)")
    results = [rule(ctx) for rule in spec["rules"]]
    # a rule that lost its instances would pass vacuously -> analysis error; but when some rule of this property reports a finding, the
    # finding is the explanation (an edit that removes a construct both breaks one rule's obligation and another's anchor) and is shown first
    if not any(r.findings for r in results):
        for res in results:
            if len(res.instances) < res.min_instances:
                raise AnalysisError(
                    f"{res.rule}: only {len(res.instances)} instances found, hand-confirmed minimum is {res.min_instances} "
                    f"(a rule that lost its instances would pass vacuously)")
    known = load_known()
    known_keys = {(k["property"], k["rule"], k["key"]): k for k in known.get("findings", []) if k.get("status", "known") == "known"}
    violations, known_hits = [], []
    for res in results:
        out(f"[floxsa] {res.rule}: {res.title}: instances={len(res.instances)} nontrivial={len(res.nontrivial)} "
            f"findings={len(res.findings)}")
        for n in res.notes:
            out(f"    note: {n}")
        for f in res.findings:
            k = known_keys.get((prop, f.rule, f.key))
            if k is not None:
                known_hits.append({"rule": f.rule, "key": f.key, "what": k.get("what", "")})
                print(f"KNOWN-FINDING: property={prop} {f.rule} {f.key}: {k.get('what', f.message)}")
            else:
                violations.append(f)
                print(f"  REPORT {f.line()}")
    extra = {}
    if tier == "thorough" and spec.get("thorough"):
        for hook in spec["thorough"]:
            extra.update(hook(ctx, prop, out))
    wall = time.time() - t0
    if write:
        write_evidence(prop, tier, results, ps, wall, len(violations), known_hits, extra=extra,
                       explanation=spec.get("explanation", ""))
    if violations:
        rp = write_replay(prop, violations) if write else "<none>"
        print(f"VIOLATION property={prop} replay={rp}")
        return 1, results, violations
    out(f"[floxsa] property={prop}: all {sum(len(r.instances) for r in results)} rule instances hold "
        f"({len(known_hits)} known findings) in {wall:.2f}s")
    return 0, results, violations


def main(argv=None) -> int:
    ap = argparse.ArgumentParser(prog="floxsa")
    ap.add_argument("property")
    ap.add_argument("--tier", default=os.environ.get("VERIF_TIER", "quick"), choices=["quick", "thorough"])
    ap.add_argument("--replay", default=None)
    ap.add_argument("--repo", default=None)
    args = ap.parse_args(argv)
    try:
        if args.replay:
            with open(args.replay) as fh:
                rp = json.load(fh)
            code, results, viol = run_property(rp["property"], "quick", args.repo, write=False, quiet=True)
            want = {(f["rule"], f["key"]) for f in rp["findings"]}
            hit = [f for f in viol if (f.rule, f.key) in want]
            for f in hit:
                print("REPLAY", f.line())
            if hit:
                print(f"VIOLATION property={rp['property']} replay={args.replay}")
                return 1
            print("replay: none of the recorded findings reproduces on the current tree")
            return 0
        code, _, _ = run_property(args.property, args.tier, args.repo, write=not os.environ.get("FLOXSA_NOWRITE"))
        return code
    except AnalysisError as e:
        print(f"ANALYSIS-ERROR property={args.property}: {e}")
        return 2
    except Exception:  # noqa: BLE001 - tracebacks must not look like violations
        traceback.print_exc()
        print(f"ANALYSIS-ERROR property={args.property}: internal error in the checker (traceback above)")
        return 2
