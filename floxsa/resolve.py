"""Repo-specific resolver: what may an expression denote?

No type checker is available in this sandbox, so callee resolution is done here:
name binding (function-local flow-insensitive union of all bindings, enclosing
scopes, module bindings, imports), functools.partial, toolz.compose, conditional
expressions, attribute access on modules, results of calls to flox functions
(union over their return expressions), and the engine dispatch through
getattr(<engine module>, name).
"""
from __future__ import annotations

import ast
from dataclasses import dataclass, field

from .model import AnalysisError, Func, Program, Unit, norm, walk_own

ENGINE_MODULES = {"aggregate_flox", "aggregate_npg", "aggregate_numbagg"}


@dataclass(frozen=True)
class T:
    """A resolution target."""
    kind: str            # func | class | ext | extmod | module | partial | compose | const | param | global | dispatch | lambda | unknown
    name: str = ""
    parts: tuple = ()    # partial: (inner T,) ; compose: tuple of T in call order (outermost first)
    kw: tuple = ()       # partial: tuple[(kwname, ast-node-id)] -> stored separately in Resolver.partial_nodes
    node_id: int = 0     # id of defining ast node (partial call / lambda) for lookup of argument nodes

    def __repr__(self):
        if self.kind == "partial":
            return f"partial({self.parts[0]!r}, {', '.join(k for k, _ in self.kw)})"
        if self.kind == "compose":
            return "compose(" + ", ".join(map(repr, self.parts)) + ")"
        return f"{self.kind}:{self.name}"


UNKNOWN = T("unknown")


class Scope:
    """Flow-insensitive binding table of one function."""

    def __init__(self, f: Func):
        self.f = f
        self.bind: dict[str, list[tuple[str, ast.AST]]] = {}
        for p in f.params:
            self.bind.setdefault(p, []).append(("param", f.node))
        self._collect(f.node)

    def _add(self, name: str, kind: str, node: ast.AST):
        self.bind.setdefault(name, []).append((kind, node))

    def _bind_target(self, tgt: ast.AST, value: ast.AST | None, kind="assign"):
        if isinstance(tgt, ast.Name):
            self._add(tgt.id, kind if value is not None else "opaque", value if value is not None else tgt)
        elif isinstance(tgt, (ast.Tuple, ast.List)):
            for i, el in enumerate(tgt.elts):
                if isinstance(el, ast.Starred):
                    el = el.value
                if value is not None and isinstance(value, (ast.Tuple, ast.List)) and len(value.elts) == len(tgt.elts) \
                        and not any(isinstance(e, ast.Starred) for e in tgt.elts):
                    self._bind_target(el, value.elts[i], kind)
                else:
                    self._bind_unpack(el, value, i)

    def _bind_unpack(self, el, value, i):
        if isinstance(el, ast.Name):
            self._add(el.id, "unpack", ast.Tuple(elts=[value, ast.Constant(i)], ctx=ast.Load()) if value is not None else el)
        elif isinstance(el, (ast.Tuple, ast.List)):
            for sub in el.elts:
                self._bind_unpack(sub.value if isinstance(sub, ast.Starred) else sub, None, 0)

    def _collect(self, root):
        f = self.f
        for n in walk_own(root):
            if n is root:
                continue
            if isinstance(n, (ast.FunctionDef, ast.AsyncFunctionDef)):
                self._add(n.name, "def", n)
            elif isinstance(n, ast.Assign):
                for t in n.targets:
                    self._bind_target(t, n.value)
            elif isinstance(n, ast.AnnAssign) and n.value is not None:
                self._bind_target(n.target, n.value)
            elif isinstance(n, ast.AugAssign) and isinstance(n.target, ast.Name):
                self._add(n.target.id, "aug", n)
            elif isinstance(n, ast.NamedExpr):
                self._add(n.target.id, "assign", n.value)
            elif isinstance(n, (ast.For, ast.AsyncFor)):
                self._bind_target(n.target, None)
                self._for_iter(n)
            elif isinstance(n, ast.With):
                for it in n.items:
                    if it.optional_vars is not None:
                        self._bind_target(it.optional_vars, None)
            elif isinstance(n, ast.Import):
                for al in n.names:
                    if al.asname:
                        self._add(al.asname, "import", ast.Constant(("module", al.name)))
                    else:
                        top = al.name.split(".")[0]
                        self._add(top, "import", ast.Constant(("module", top)))
            elif isinstance(n, ast.ImportFrom):
                mod = Program._abs_module(f.unit, n.module, n.level)
                for al in n.names:
                    self._add(al.asname or al.name, "import", ast.Constant(("from", mod, al.name)))
            elif isinstance(n, ast.ExceptHandler) and n.name:
                self._add(n.name, "opaque", n)

    def _for_iter(self, n: ast.For):
        # remember the iterable for loop variables: name -> ("iter", iterable expr)
        if isinstance(n.target, ast.Name):
            self.bind[n.target.id][-1] = ("iter", n.iter)
        elif isinstance(n.target, ast.Tuple):
            # for i, x in enumerate(E) / zip(...)
            it = n.iter
            if isinstance(it, ast.Call) and norm(it.func) == "enumerate" and len(n.target.elts) == 2 \
                    and isinstance(n.target.elts[1], ast.Name) and it.args:
                self.bind[n.target.elts[1].id][-1] = ("iter", it.args[0])
            elif isinstance(it, ast.Call) and norm(it.func) == "zip":
                for el, src in zip(n.target.elts, it.args):
                    if isinstance(el, ast.Name):
                        self.bind[el.id][-1] = ("iter", src)


class Resolver:
    def __init__(self, prog: Program):
        self.prog = prog
        self._scopes: dict[str, Scope] = {}
        self.partial_nodes: dict[int, ast.Call] = {}
        self.partial_ctx: dict[int, Func | None] = {}
        self.lambda_nodes: dict[int, ast.Lambda] = {}
        self.unresolved: list[str] = []
        self.facts: frozenset = frozenset()   # (atom text, bool) guard facts assumed while resolving (see assuming())

    def assuming(self, facts):
        """context manager: resolve conditional expressions under the given guard facts"""
        res = self

        class _Ctx:
            def __enter__(self_inner):
                self_inner.old = res.facts
                res.facts = frozenset(facts)

            def __exit__(self_inner, *a):
                res.facts = self_inner.old
        return _Ctx()

    def _stable_atom(self, test: ast.AST, f: Func | None) -> bool:
        """every variable of the test is bound exactly once in f (so the guard and the definition see the same value)"""
        if f is None:
            return False
        sc = self.scope(f)
        for n in ast.walk(test):
            if isinstance(n, ast.Name) and len(sc.bind.get(n.id, [])) > 1:
                return False
        return True

    def scope(self, f: Func) -> Scope:
        s = self._scopes.get(f.qualname)
        if s is None:
            s = self._scopes[f.qualname] = Scope(f)
        return s

    # ------------------------------------------------------------ module level
    def module_attr(self, unit_name: str, attr: str, depth=0) -> set[T]:
        """What does flox.<unit>.<attr> denote?"""
        u = self.prog.units.get(unit_name)
        if u is None:
            return {T("ext", f"flox.{unit_name}.{attr}")}
        if attr in u.funcs:
            return {T("func", u.funcs[attr].qualname)}
        if attr in u.classes:
            return {T("class", f"{unit_name}.{attr}")}
        out: set[T] = set()
        if attr in u.bindings:
            for v in u.bindings[attr]:
                r = self.resolve(v, None, u, depth + 1)
                # containers and plain constants: keep identity as a global
                if not r or r == {UNKNOWN}:
                    out.add(T("global", f"{unit_name}.{attr}"))
                else:
                    out |= r
            return out
        if attr in u.imports:
            return self._import_target(u.imports[attr], depth)
        return {UNKNOWN}

    def _import_target(self, imp: tuple, depth=0) -> set[T]:
        if imp[0] == "module":
            dotted = imp[1]
            if dotted == "flox" or dotted.startswith("flox."):
                sub = dotted[5:] if dotted.startswith("flox.") else ""
                return {T("module", sub or "__init__")}
            return {T("extmod", dotted)}
        _, mod, attr = imp
        if mod == "flox" or mod.startswith("flox."):
            sub = mod[5:] if mod.startswith("flox.") else ""
            if not sub:
                # from . import xrdtypes as dtypes
                if attr in self.prog.units:
                    return {T("module", attr)}
                return self.module_attr("__init__", attr, depth + 1)
            return self.module_attr(sub, attr, depth + 1)
        return {T("ext", f"{mod}.{attr}")}

    # ------------------------------------------------------------ names
    def resolve_name(self, name: str, f: Func | None, u: Unit, depth=0, _seen=None) -> set[T]:
        _seen = _seen or set()
        cur = f
        while cur is not None:
            sc = self.scope(cur)
            if name in sc.bind:
                out: set[T] = set()
                for idx, (kind, node) in enumerate(sc.bind[name]):
                    key = (cur.qualname, name, idx)
                    if key in _seen:
                        continue          # x = compose(f, x): the inner x denotes the *other* bindings of x
                    seen2 = _seen | {key}
                    if kind == "param":
                        out.add(T("param", f"{cur.qualname}:{name}"))
                    elif kind == "def":
                        qn = f"{cur.qualname}.{node.name}"
                        out.add(T("func", qn) if qn in self.prog.funcs else UNKNOWN)
                    elif kind == "assign":
                        out |= self.resolve(node, cur, u, depth + 1, seen2)
                    elif kind == "import":
                        out |= self._import_target(node.value, depth)
                    elif kind == "iter":
                        out |= self._resolve_iter_elem(node, cur, u, depth + 1, seen2)
                    elif kind == "aug":
                        pass
                    else:
                        out.add(UNKNOWN)
                return out or {UNKNOWN}
            cur = cur.parent
        # module level
        if name in u.funcs:
            return {T("func", u.funcs[name].qualname)}
        if name in u.classes:
            return {T("class", f"{u.name}.{name}")}
        if name in u.bindings:
            return self.module_attr(u.name, name, depth)
        if name in u.imports:
            return self._import_target(u.imports[name], depth)
        import builtins
        if hasattr(builtins, name):
            return {T("ext", f"builtins.{name}")}
        return {UNKNOWN}

    def _resolve_iter_elem(self, it: ast.AST, f, u, depth, _seen) -> set[T]:
        """Element of an iterable: tuple literal -> union of elements; attribute slots handled by callers."""
        if isinstance(it, (ast.Tuple, ast.List)):
            out = set()
            for e in it.elts:
                out |= self.resolve(e, f, u, depth, _seen)
            return out
        if isinstance(it, ast.Attribute):
            return {T("slot-elem", it.attr)}
        return {UNKNOWN}

    # ------------------------------------------------------------ expressions
    def resolve(self, e: ast.AST, f: Func | None, u: Unit, depth=0, _seen=None) -> set[T]:
        if depth > 12:
            return {UNKNOWN}
        if isinstance(e, ast.Name):
            return self.resolve_name(e.id, f, u, depth, _seen)
        if isinstance(e, ast.Constant):
            return {T("const", repr(e.value))}
        if isinstance(e, ast.Lambda):
            self.lambda_nodes[id(e)] = e
            return {T("lambda", f"{u.name}:{e.lineno}", node_id=id(e))}
        if isinstance(e, ast.IfExp):
            if self.facts:
                from .dataflow import atom_of
                a, pol = atom_of(e.test)
                if self._stable_atom(e.test, f):
                    if (a, True) in self.facts:
                        return self.resolve(e.body if pol else e.orelse, f, u, depth + 1, _seen)
                    if (a, False) in self.facts:
                        return self.resolve(e.orelse if pol else e.body, f, u, depth + 1, _seen)
            return self.resolve(e.body, f, u, depth + 1, _seen) | self.resolve(e.orelse, f, u, depth + 1, _seen)
        if isinstance(e, ast.BoolOp):
            out = set()
            for v in e.values:
                out |= self.resolve(v, f, u, depth + 1, _seen)
            return out
        if isinstance(e, ast.Attribute):
            base = self.resolve(e.value, f, u, depth + 1, _seen)
            out = set()
            for b in base:
                if b.kind == "module":
                    out |= self.module_attr(b.name, e.attr, depth + 1)
                elif b.kind == "extmod":
                    out.add(T("ext", f"{b.name}.{e.attr}"))
                elif b.kind == "ext":
                    out.add(T("ext", f"{b.name}.{e.attr}"))
                elif b.kind == "class":
                    qn = f"{b.name}.{e.attr}"
                    out.add(T("func", qn) if qn in self.prog.funcs else T("classattr", qn))
                elif b.kind == "partial" and e.attr == "func":
                    out.add(b.parts[0])
                else:
                    out.add(T("attr", e.attr))
            return out or {UNKNOWN}
        if isinstance(e, ast.Call):
            return self._resolve_call(e, f, u, depth, _seen)
        if isinstance(e, ast.Starred):
            return self.resolve(e.value, f, u, depth + 1, _seen)
        if isinstance(e, ast.Subscript):
            return {T("subscript", norm(e.value))}
        return {UNKNOWN}

    def _resolve_call(self, e: ast.Call, f, u, depth, _seen) -> set[T]:
        callee = self.resolve(e.func, f, u, depth + 1, _seen)
        out: set[T] = set()
        for c in callee:
            if c.kind == "ext" and c.name in ("functools.partial",):
                if not e.args:
                    out.add(UNKNOWN)
                    continue
                inner = self.resolve(e.args[0], f, u, depth + 1, _seen)
                self.partial_nodes[id(e)] = e
                self.partial_ctx[id(e)] = f
                for i in inner:
                    out.add(T("partial", "", parts=(i,), kw=tuple((k.arg, id(k.value)) for k in e.keywords if k.arg),
                              node_id=id(e)))
            elif c.kind == "ext" and c.name in ("toolz.compose", "toolz.functoolz.compose", "tlz.compose"):
                parts = []
                for a in e.args:
                    r = self.resolve(a, f, u, depth + 1, _seen)
                    parts.append(tuple(sorted(r, key=repr)))
                # represent as compose of tuple-of-alternatives (flattened lazily by callers)
                out.add(T("compose", "", parts=tuple(parts)))
            elif c.kind == "ext" and c.name == "builtins.getattr" and len(e.args) >= 2:
                base = self.resolve(e.args[0], f, u, depth + 1, _seen)
                for b in base:
                    if b.kind == "module" and b.name in ENGINE_MODULES:
                        if isinstance(e.args[1], ast.Constant):
                            out |= self.module_attr(b.name, e.args[1].value, depth + 1)
                        else:
                            out.add(T("dispatch", b.name))
                    elif b.kind == "module":
                        if isinstance(e.args[1], ast.Constant):
                            out |= self.module_attr(b.name, e.args[1].value, depth + 1)
                        else:
                            out.add(T("dispatch", b.name))
                    elif b.kind in ("extmod", "ext"):
                        nm = e.args[1].value if isinstance(e.args[1], ast.Constant) else "*"
                        out.add(T("ext", f"{b.name}.{nm}"))
                    else:
                        out.add(T("attr", "*"))
            elif c.kind == "func":
                out |= self.call_result(c.name, depth + 1, _seen)
            elif c.kind == "class":
                out.add(T("instance", c.name))
            elif c.kind == "partial":
                # calling a partial: result of inner
                inner = c.parts[0]
                if inner.kind == "func":
                    out |= self.call_result(inner.name, depth + 1, _seen)
                else:
                    out.add(T("ret", repr(inner)))
            elif c.kind == "ext":
                out.add(T("ret", c.name))
            else:
                out.add(UNKNOWN)
        return out or {UNKNOWN}

    def call_result(self, qualname: str, depth=0, _seen=None) -> set[T]:
        """Union of what the return expressions of a flox function may denote (callables only matter)."""
        if depth > 12:
            return {UNKNOWN}
        key = ("ret", qualname)
        _seen = _seen or set()
        if key in _seen:
            return set()
        _seen = _seen | {key}
        g = self.prog.funcs.get(qualname)
        if g is None:
            return {UNKNOWN}
        out: set[T] = set()
        for n in walk_own(g.node):
            if isinstance(n, ast.Return) and n.value is not None:
                r = self.resolve(n.value, g, g.unit, depth + 1, _seen)
                out |= {t for t in r}
        return out or {T("ret", qualname)}

    # ------------------------------------------------------------ utilities
    def partial_call(self, t: T) -> ast.Call:
        return self.partial_nodes[t.node_id]

    def flatten_callables(self, ts: set[T]) -> set[T]:
        """Expand partial/compose to the set of underlying func/ext/lambda/dispatch targets."""
        out: set[T] = set()
        work = list(ts)
        seen = set()
        while work:
            t = work.pop()
            if t in seen:
                continue
            seen.add(t)
            if t.kind == "partial":
                work.append(t.parts[0])
            elif t.kind == "compose":
                for alt in t.parts:
                    work.extend(alt)
            else:
                out.add(t)
        return out
