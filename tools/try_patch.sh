#!/bin/sh
# usage: tools/try_patch.sh <patch.diff> <property>...   -- run checks against a scratch copy of /repo with the patch applied
patch=$1; shift
d=$(mktemp -d /tmp/floxsa_try_XXXXXX)
mkdir -p $d && cp -r /repo/flox $d/flox && rm -rf $d/flox/__pycache__
(cd $d && patch -s -p1 < $patch) || { echo "PATCH FAILED"; rm -rf $d; exit 3; }
rc=0
for p in "$@"; do
  FLOXSA_REPO=$d FLOXSA_NOWRITE=1 /venv/bin/python -B -m floxsa $p 2>&1 | grep -E "REPORT|VIOLATION|ANALYSIS-ERROR|KNOWN" | cut -c1-420
done
rm -rf $d
