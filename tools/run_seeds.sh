#!/bin/sh
# usage: tools/run_seeds.sh <dir-with-seed-dirs> [property...]: for each seed, which checks fire?
base=${1:-/verif/seeded}; shift
props=${*:-C01 C02 C03 C04 C05 C06 C07 C08 C09 C10 C11 C12 C13 C14 C16 C18 C19 C20}
for sd in $base/*/; do
  [ -f $sd/patch.diff ] || continue
  name=$(basename $sd)
  d=$(mktemp -d /tmp/floxsa_try_XXXXXX)
  cp -r /repo/flox $d/flox && rm -rf $d/flox/__pycache__
  if ! (cd $d && patch -s -p1 < $sd/patch.diff >/dev/null 2>&1); then echo "$name: PATCH FAILED"; rm -rf $d; continue; fi
  fired=""
  for p in $props; do
    out=$(FLOXSA_REPO=$d FLOXSA_NOWRITE=1 /venv/bin/python -B -m floxsa $p 2>&1)
    rc=$?
    if [ $rc -eq 1 ]; then rules=$(echo "$out" | grep REPORT | sed -E 's/.* (R-[A-Z]+) .*/\1/' | sort -u | tr '\n' ','); fired="$fired $p[$rules]"; fi
    if [ $rc -eq 2 ]; then fired="$fired $p[ANALYSIS-ERROR]"; fi
  done
  echo "$name: ${fired:- (no check fires)}"
  rm -rf $d
done
