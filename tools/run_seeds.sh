#!/bin/sh
# usage: tools/run_seeds.sh [<dir-with-seed-dirs>] [jobs]: for each seeded change, which checks fire?  (parallel; output sorted by seed)
base=${1:-/verif/seeded}; jobs=${2:-6}
ls -d $base/*/ | xargs -P $jobs -n 1 /verif/tools/run_seed_one.sh | sort
