#!/bin/sh
# usage: tools/run_seed_one.sh <seed dir> [property...]: which checks fire on a scratch copy of /repo/flox with the seed's patch applied?
sd=$1; shift
props=${*:-C01 C02 C03 C04 C05 C06 C07 C08 C09 C10 C11 C12 C13 C14 C16 C18 C19 C20}
name=$(basename $sd)
d=$(mktemp -d /tmp/floxsa_try_XXXXXX)
cp -r /repo/flox $d/flox && rm -rf $d/flox/__pycache__
how=""
if ! (cd $d && patch -s -p1 --dry-run < $sd/patch.diff >/dev/null 2>&1); then
  # /repo has moved on since the seed was written (repairs in the same region): try with fuzz, then a hand-rebased copy of the same change
  if (cd $d && patch -s -p1 -F3 --dry-run < $sd/patch.diff >/dev/null 2>&1); then how=" (applied with fuzz)"; (cd $d && patch -s -p1 -F3 --no-backup-if-mismatch < $sd/patch.diff >/dev/null 2>&1)
  elif [ -f $sd/patch_rebased.diff ] && (cd $d && patch -s -p1 --dry-run < $sd/patch_rebased.diff >/dev/null 2>&1); then how=" (rebased patch)"; (cd $d && patch -s -p1 < $sd/patch_rebased.diff >/dev/null 2>&1)
  else echo "$name: PATCH FAILED"; rm -rf $d; exit 0; fi
else
  (cd $d && patch -s -p1 < $sd/patch.diff >/dev/null 2>&1)
fi
fired=""
for p in $props; do
  out=$(cd /verif && FLOXSA_REPO=$d FLOXSA_NOWRITE=1 /venv/bin/python -B -m floxsa $p 2>&1)
  rc=$?
  if [ $rc -eq 1 ]; then rules=$(echo "$out" | grep REPORT | sed -E 's/.* (R-[A-Z]+(\[[a-z-]+\])?) .*/\1/' | sort -u | tr '\n' ','); fired="$fired $p[$rules]"; fi
  if [ $rc -eq 2 ]; then fired="$fired $p[ANALYSIS-ERROR]"; fi
done
echo "$name$how: ${fired:- (no check fires)}"
rm -rf $d
