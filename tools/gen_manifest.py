#!/venv/bin/python
"""Regenerate /verif/MANIFEST.json from floxsa.properties (keeps it consistent with what is built)."""
import json, os, sys
sys.path.insert(0, os.path.dirname(os.path.dirname(os.path.abspath(__file__))))
from floxsa.properties import PROPERTIES, NOT_APPLICABLE, PENDING  # noqa: E402

ALL = [f"C{i:02d}" for i in range(1, 21)]
BASE = ("cd /repo && /venv/bin/python -m pytest -ra -q -p no:cacheprovider --timeout=900 "
        "--continue-on-collection-errors")
checks = []
for pid in ALL:
    if pid not in PROPERTIES:
        continue
    spec = PROPERTIES[pid]
    checks.append({
        "property_id": pid,
        "quick_cmd": f"./check {pid} --tier quick",
        "thorough_cmd": f"./check {pid} --tier thorough",
        "evidence_file": f"/verif/evidence/{pid}.json",
        "replay_cmd_template": f"./check {pid} --replay {{path}}",
        "engine": "floxsa",
        "level_claimed": {
            "category": "other",
            "text": spec["level_text"],
            "design_ref": spec.get("design_ref", "DESIGN.md §3, §4"),
        },
        "level_note": spec.get("level_note", "Trusted base: CPython's ast; the frozen NumPy/pandas/dask semantics tables in "
                               "floxsa/tables.py; external kernels (numpy_groupies, numbagg) do what their names say. "
                               "Decides only the named structural clauses, not run-time values."),
        "technique": spec["technique"],
    })
na = []
for pid in ALL:
    if pid in PROPERTIES:
        continue
    reason = NOT_APPLICABLE.get(pid) or PENDING.get(pid)
    if not reason:
        raise SystemExit(f"{pid}: neither claimed nor given a not-applicable reason")
    na.append({"property_id": pid, "reason": reason})
man = {
    "version": 1,
    "setup_cmd": "true",
    "hooks": {
        "guard": "FLOX_VERIF",
        "enable": "no hooks: the checks parse /repo/flox/*.py and never import or run it (guard unused)",
        "baseline_off_cmd": BASE,
        "source_commits": [],
        "add_only": True,
    },
    "engines": [{
        "name": "floxsa",
        "path": "/verif/floxsa",
        "serves_properties": [c["property_id"] for c in checks],
        "kind_free_text": "repository-specific static analyser (stdlib ast/symtable): resolver with partial/compose/engine-dispatch "
                          "models, blueprint registry evaluator, call graph with derived task roots, statement CFG, worklist dataflow "
                          "(definite assignment, origins/aliasing, chunkedness predicate abstraction), frozen convention tables",
    }],
    "checks": checks,
    "not_applicable": na,
    "notes": "Static analysis only: every verdict is computed from /repo/flox/*.py as parsed on that run; nothing imports or executes "
             "flox. exit 0 = all rule instances hold (KNOWN-FINDING lines allowed), 1 = VIOLATION, 2 = ANALYSIS-ERROR (analysis could "
             "not be carried out; never a verdict). Known findings and fixed defects: /verif/known_findings.json.",
}
path = os.path.join(os.path.dirname(os.path.dirname(os.path.abspath(__file__))), "MANIFEST.json")
with open(path, "w") as fh:
    json.dump(man, fh, indent=1)
print("wrote", path, "checks:", [c["property_id"] for c in checks], "n/a:", [n["property_id"] for n in na])
