#!/usr/bin/env python3
"""Regenerate the generated rules table of DESIGN.md (between the RULES-TABLE markers) from /verif/evidence/*.json (run the quick checks first)."""
import json, os, re
root = os.path.dirname(os.path.dirname(os.path.abspath(__file__)))
rows = []
for i in range(1, 21):
    pid = f"C{i:02d}"
    p = os.path.join(root, "evidence", f"{pid}.json")
    if not os.path.exists(p):
        continue
    ev = json.load(open(p))
    rules = ev.get("coverage", {}).get("rules", {})
    if not rules:
        continue
    rows.append(f"| {pid} | " + ", ".join(f"{r} ({v.get('instances', 0)})" for r, v in rules.items()) + " |")
block = ("<!-- RULES-TABLE-BEGIN -->\n*As built.*  The paragraphs below describe the first wave of rules per property; the authoritative list is the `rules` entry of each\n"
         "property in `floxsa/properties.py` (later waves are described in §3).  Generated from the evidence files by `tools/gen_rules_table.py`:\n\n"
         "| property | rules run by `./check <id>` today (obligations examined on the current tree) |\n|---|---|\n" + "\n".join(rows) + "\n<!-- RULES-TABLE-END -->")
d = os.path.join(root, "DESIGN.md")
s = open(d).read()
s2 = re.sub(r"<!-- RULES-TABLE-BEGIN -->.*?<!-- RULES-TABLE-END -->", lambda m: block, s, flags=re.S)
open(d, "w").write(s2)
print(f"{len(rows)} rows")
